"""T-gen for the entry-point wrappers: sv-parser/src/lib.rs (parse_sv, parse_sv_str, parse_lib, parse_lib_str),
sv-parser-pp/src/preprocess.rs (preprocess, preprocess_inner) and sv-parser-parser/src/lib.rs (the five parser
entries and init). Each wrapper becomes a Lean term over abstract callees with arguments BY POSITION."""
import re, os
from rustsrc import REPO, blank_literals, match_brace
from rustexpr import Parser, Unsupported, parse_stmts_prefix

def fn_source(path, name):
    src = open(path).read(); ss = blank_literals(src)
    m = re.search(r'\bfn\s+' + name + r'\s*(<[^{(]*>)?\s*\(', ss)
    if not m: return None
    # parameter list
    pe = match_brace(ss, m.end(), '(', ')')
    params = src[m.end():pe - 1]
    b = ss.index('{', pe)
    e = match_brace(ss, b + 1)
    return params, src[b + 1:e - 1]

def lean_type(rust_ty):
    t = rust_ty.strip()
    if 'Defines' in t: return 'Defs'
    if t.startswith('&['): return 'Incs'
    if t == 'bool': return 'Bool'
    if t == 'usize': return 'Nat'
    if t == '&str': return 'Str'
    if 'PreprocessedText' in t: return 'Text'
    return 'Path'

def split_params(params):
    out = []
    depth = 0; cur = ''
    for ch in params:
        if ch in '<([': depth += 1
        if ch in '>)]': depth -= 1
        if ch == ',' and depth == 0: out.append(cur); cur = ''
        else: cur += ch
    if cur.strip(): out.append(cur)
    return [x for x in out if x.strip()]

def param_names(params):
    return [re.sub(r'^mut\s+', '', x.split(':')[0].strip()) for x in split_params(params)]

def param_binders(params):
    return ' '.join('(%s : %s)' % (lean_name(re.sub(r'^mut\s+', '', x.split(':')[0].strip())), lean_type(x.split(':', 1)[1])) for x in split_params(params))

def arg(e):
    if e[0] == 'path': return e[1]
    if e[0] == 'num': return e[1].replace('usize', '')
    raise Unsupported('argument ' + str(e)[:40])

def simple_wrapper(path, name):
    """fn body of the shape  [let (a, b) = CALLEE(args)?;]* CALLEE(args)   ->  (params, [(pattern names, callee, args)], (callee, args))"""
    r = fn_source(path, name)
    if r is None: raise Unsupported('function %s not found' % name)
    params, body = r
    stmts, rest = parse_stmts_prefix(body)
    if rest: raise Unsupported('%s: unparsed %r' % (name, rest[:40]))
    lets = []; final = None
    for kind, st in stmts:
        if kind == 'tail':
            if st[0] != 'call' or st[1][0] != 'path': raise Unsupported(name + ': tail')
            final = (st[1][1], [arg(a) for a in st[2]])
        elif st[0] == 'let' and st[1][0] == 'ptuple' and st[2][0] == 'try' and st[2][1][0] == 'call':
            lets.append(([p[1] for p in st[1][1]], st[2][1][1][1], [arg(a) for a in st[2][1][2]]))
        else: raise Unsupported(name + ': statement')
    if final is None: raise Unsupported(name + ': no tail call')
    return param_names(params), lets, final, param_binders(params)

INNER_TEMPLATE = re.compile(
    r'let f = File::open\(path\.as_ref\(\)\)\.map_err\(\|x\| Error::File \{ source: x, path: PathBuf::from\(path\.as_ref\(\)\), \}\)\?; '
    r'let mut reader = BufReader::new\(f\); let mut s = String::new\(\); '
    r'if let Err\(_\) = reader\.read_to_string\(&mut s\) \{ Err\(Error::ReadUtf8\(PathBuf::from\(path\.as_ref\(\)\)\)\) \} '
    r'else \{ preprocess_str\( (.*?),? \) \}$')

def generate():
    lib = os.path.join(REPO, 'sv-parser/src/lib.rs')
    pp = os.path.join(REPO, 'sv-parser-pp/src/preprocess.rs')
    out = {}; problems = []
    for name in ('parse_sv', 'parse_sv_str', 'parse_lib', 'parse_lib_str'):
        try: out[name] = simple_wrapper(lib, name)
        except Unsupported as ex: problems.append(str(ex))
    try: out['preprocess'] = simple_wrapper(pp, 'preprocess')
    except Unsupported as ex: problems.append(str(ex))
    r = fn_source(pp, 'preprocess_inner')
    if r:
        params, body = r
        norm = re.sub(r'\s+', ' ', re.sub(r'//[^\n]*', '', body).strip())
        m = INNER_TEMPLATE.match(norm)
        if m:
            args = [re.sub(r'^&', '', a.strip()) for a in m.group(1).split(',') if a.strip()]
            out['preprocess_inner'] = (param_names(params), args, param_binders(params))
        else: problems.append('preprocess_inner has an unrecognised body')
    else: problems.append('preprocess_inner not found')
    r = fn_source(pp, 'preprocess_str')
    out['preprocess_str_params'] = param_names(r[0]) if r else []
    # parser entries: first statement must be init(); then PROD(s)
    plib = os.path.join(REPO, 'sv-parser-parser/src/lib.rs')
    entries = {}
    for name in ('sv_parser', 'sv_parser_incomplete', 'lib_parser', 'lib_parser_incomplete', 'pp_parser'):
        r = fn_source(plib, name)
        if not r: problems.append(name + ' not found'); continue
        norm = re.sub(r'\s+', ' ', r[1].strip())
        m = re.match(r'^init\(\); (\w+)\(s\)$', norm)
        entries[name] = m.group(1) if m else None
        if not m: problems.append(name + ': body is not `init(); PROD(s)`: ' + norm[:60])
    r = fn_source(plib, 'init')
    init_body = re.sub(r'\s+', ' ', r[1].strip()) if r else ''
    # parse_sv_pp / parse_lib_pp: which parser entry is used for which value of allow_incomplete
    disp = {}
    for name in ('parse_sv_pp', 'parse_lib_pp'):
        r = fn_source(lib, name)
        if not r: problems.append(name + ' not found'); continue
        norm = re.sub(r'\s+', ' ', r[1].strip())
        m = re.search(r'let result = if allow_incomplete \{ (\w+)\(span\) \} else \{ (\w+)\(span\) \};', norm)
        m2 = re.search(r'let span = Span::new_extra\(text\.text\(\), SpanInfo::default\(\)\);', norm)
        if m and m2: disp[name] = (m.group(1), m.group(2))
        else: problems.append(name + ': dispatch on allow_incomplete not recognised')
    out['dispatch'] = disp
    out['parser_entries'] = entries
    out['init_calls'] = re.findall(r'(nom_packrat::init!|clear_directive|clear_version)\(\)', init_body)
    out['init_body'] = init_body
    return out, problems

def lean_name(s): return re.sub(r'[^A-Za-z0-9_]', '_', s)

def emit(out, problems):
    L = ['/-! GENERATED by svx from sv-parser/src/lib.rs, sv-parser-pp/src/preprocess.rs, sv-parser-parser/src/lib.rs — do not edit. -/',
         'namespace Sv.Gen.Entry', '',
         '/-- abstract callees: what the wrappers are built from -/',
         'structure Env (Path Str Defs Incs Text Tree Err : Type) where',
         '  readFile : Path → Except Err Str            -- File::open + read_to_string (File / ReadUtf8 errors)',
         '  preprocessStr : Str → Path → Defs → Incs → Bool → Bool → Nat → Nat → Except Err (Text × Defs)',
         '  parseSvPp : Text → Defs → Bool → Except Err (Tree × Defs)',
         '  parseLibPp : Text → Defs → Bool → Except Err (Tree × Defs)', '',
         'variable {Path Str Defs Incs Text Tree Err : Type} (E : Env Path Str Defs Incs Text Tree Err)', '']
    callee = {'preprocess_str': 'E.preprocessStr', 'parse_sv_pp': 'E.parseSvPp', 'parse_lib_pp': 'E.parseLibPp',
              'preprocess': 'preprocess E', 'preprocess_inner': 'preprocessInner E'}
    def lit(a, params):
        if a in ('true', 'false'): return a
        if a.isdigit(): return a
        if a in params or True: return lean_name(a)
    ok = True
    if 'preprocess_inner' in out:
        params, args, binders = out['preprocess_inner']
        L.append('/-- preprocess_inner(%s): read the file, then preprocess_str(%s) -/' % (', '.join(params), ', '.join(args)))
        L.append('def preprocessInner %s : Except Err (Text × Defs) :=' % binders)
        a2 = ['s' if a == 's' else lit(a, params) for a in args]
        L.append('  match E.readFile path with')
        L.append('  | .error e => .error e')
        L.append('  | .ok s => E.preprocessStr %s' % ' '.join(a2))
        L.append('')
    else: ok = False
    for name in ('preprocess', 'parse_sv', 'parse_sv_str', 'parse_lib', 'parse_lib_str'):
        if name not in out: ok = False; continue
        params, lets, final, binders = out[name]
        lname = {'preprocess': 'preprocess', 'parse_sv': 'parseSv', 'parse_sv_str': 'parseSvStr', 'parse_lib': 'parseLib', 'parse_lib_str': 'parseLibStr'}[name]
        L.append('/-- %s(%s) -/' % (name, ', '.join(params)))
        L.append('def %s %s : Except Err (%s × Defs) :=' % (lname, binders, 'Text' if name == 'preprocess' else 'Tree'))
        body = []
        for pats, cal, args in lets:
            if cal not in callee: problems.append('%s calls unknown %s' % (name, cal)); ok = False; continue
            body.append('  match %s %s with' % (callee[cal], ' '.join(lit(a, params) for a in args)))
            body.append('  | .error e => .error e')
            body.append('  | .ok (%s) =>' % ', '.join(lean_name(p) for p in pats))
        cal, args = final
        if cal not in callee: problems.append('%s calls unknown %s' % (name, cal)); ok = False; cal = 'preprocess_str'
        body.append('  %s %s' % (callee[cal], ' '.join(lit(a, params) for a in args)))
        L += body + ['']
    ents = out.get('parser_entries', {})
    L.append('/-- `pub fn X(s) { init(); PROD(s) }`: (entry, production) pairs whose first statement is `init()` -/')
    L.append('def parserEntries : List (String × String) := [%s]' % ', '.join('("%s", "%s")' % (k, v) for k, v in ents.items() if v))
    L.append('def parserEntriesAll : Bool := %s' % ('true' if all(ents.get(k) for k in ('sv_parser', 'sv_parser_incomplete', 'lib_parser', 'lib_parser_incomplete', 'pp_parser')) else 'false'))
    L.append('/-- (wrapper, parser entry used when allow_incomplete, parser entry used otherwise) -/')
    L.append('def dispatch : List (String × String × String) := [%s]' % ', '.join('("%s", "%s", "%s")' % (k, v[0], v[1]) for k, v in out.get('dispatch', {}).items()))
    L.append('/-- calls made by `init()` in order -/')
    L.append('def initCalls : List String := [%s]' % ', '.join('"%s"' % c for c in out.get('init_calls', [])))
    L += ['', 'end Sv.Gen.Entry', '']
    return '\n'.join(L), ok

if __name__ == '__main__':
    o, p = generate(); print(o); print(p); print(emit(o, p)[0])

"""T-gen for C08: inventory of potential panic sites (unwrap / expect / assert! / assert_eq! / panic! / unreachable! /
slice indexing with a range / get_unchecked / unchecked usize subtraction on known names) in the non-test code of
the six crates, per (file, function). Growth relative to the committed baseline is a broken obligation: a new site
is not covered by the panic-class lemmas of Props/C08.lean."""
import re, os, json
from rustsrc import REPO, blank_literals, match_brace, rs_files

CRATES = ['sv-parser', 'sv-parser-error', 'sv-parser-macros', 'sv-parser-parser', 'sv-parser-pp', 'sv-parser-syntaxtree']
PATTERNS = {
    'unwrap': r'\.unwrap\(\)', 'expect': r'\.expect\(', 'assert': r'\bassert(_eq|_ne)?!', 'panic': r'\b(panic|unreachable|unimplemented|todo)!',
    'range-index': r'\[[^\]\[]*\.\.[^\]\[]*\]', 'get_unchecked': r'get_unchecked', 'sub-begin': r'-\s*origin\.range\.begin|pos\s*-\s*',
}

def scan():
    out = {}
    for crate in CRATES:
        for f in rs_files(crate, exclude=('tests.rs',)):
            src = open(f).read(); ss = blank_literals(src)
            m = re.search(r'#\[cfg\(test\)\]\s*mod\s+\w+\s*\{', ss)
            limit = m.start() if m else len(ss)
            body = ss[:limit]
            # function spans
            spans = []
            for fm in re.finditer(r'\bfn\s+((?:r#)?\w+)', body):
                b = body.find('{', fm.end())
                semi = body.find(';', fm.end())
                if b < 0 or (0 <= semi < b): continue
                try: e = match_brace(body, b + 1)
                except IndexError: continue
                spans.append((b, e, fm.group(1)))
            def fn_of(pos):
                best = None
                for b, e, n in spans:
                    if b <= pos < e and (best is None or b > best[0]): best = (b, n)
                return best[1] if best else '<top>'
            for pname, rx in PATTERNS.items():
                for pm in re.finditer(rx, body):
                    key = '%s::%s' % (os.path.relpath(f, REPO), fn_of(pm.start()))
                    out.setdefault(key, {}).setdefault(pname, 0)
                    out[key][pname] += 1
    return out

def compare(cur, base):
    """sites present now that exceed the baseline count"""
    grown = []
    for k, pats in cur.items():
        for p, n in pats.items():
            b = base.get(k, {}).get(p, 0)
            if n > b: grown.append('%s %s: %d -> %d' % (k, p, b, n))
    return sorted(grown)

if __name__ == '__main__':
    import sys
    cur = scan()
    if len(sys.argv) > 1 and sys.argv[1] == '--write-baseline':
        json.dump({'note': 'panic-site inventory of the pinned tree (+ fix: commits); changed only by hand', 'sites': cur}, open('/verif/svx/panic_baseline.json', 'w'), indent=0, sort_keys=True)
    tot = sum(sum(v.values()) for v in cur.values())
    print(len(cur), 'functions with sites;', tot, 'sites')
    agg = {}
    for v in cur.values():
        for p, n in v.items(): agg[p] = agg.get(p, 0) + n
    print(agg)

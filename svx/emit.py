"""Emit the generated Lean modules under lean/SvModel/SvModel/Gen/ and work/summary.json."""
import os, json, re, hashlib
from leanout import lbytes, lstr, write_if_changed
import grammar, conv, corpus
import entry as entrymod
import statics as staticsmod
import panics as panicsmod
import ppconsts as ppconstsmod
import pparms as pparmsmod
from rustsrc import REPO, unescape_rust_str

NSHARDS = 16
GEN = '/verif/lean/SvModel/SvModel/Gen'

SETS = {}
def hoist(s):
    if len(s) < 12: return lbytes(s)
    if s not in SETS: SETS[s] = 'cs%d' % len(SETS)
    return SETS[s]

def term(t):
    k = t[0]
    if k in ('tag', 'tagNoCase', 'isA', 'isNot', 'oneOf', 'noneOf'):
        if isinstance(t[1], tuple): raise grammar.Unsupported('unfilled hole in terminal')
        return '(.%s %s)' % (k, hoist(t[1]))
    if k == 'take': return '(.take %d)' % t[1]
    return '.' + k

class Emitter:
    def __init__(self, tr):
        self.tr = tr
    def kind(self, name):
        """struct: its kind id; enum variant `E::V`: id(E) + 2048 * (index of V + 1)"""
        if '::' in name:
            en, vn = name.split('::')
            return str(self.tr.kind_id[en] + 2048 * (self.tr.variants[en].index(vn) + 1))
        return str(self.tr.kind_id[name])
    def shape(self, s):
        k = s[0]
        if k == 'var': return '(.var %d)' % s[1]
        if k == 'tuple': return '(.tuple [%s])' % ', '.join(self.shape(x) for x in s[1])
        if k == 'node': return '(.node %s %s)' % (self.kind(s[1]), self.shape(s[2]))
        if k == 'leaf': return '(.leaf %s)' % self.shape(s[1])
        if k == 'empty': return '.empty'
        raise grammar.Unsupported('shape ' + k)
    def pe(self, e):
        k = e[0]
        if k == 'term': return '(.term %s)' % term(e[1])
        if k in ('eof', 'beginDir', 'endDir', 'endKw', 'fail'): return '.' + k
        if k == 'call': return '(.call %d)' % self.tr.idx[e[1]]
        if k in ('seq', 'alt'): return '(.%s [%s])' % (k, ', '.join(self.pe(x) for x in e[1]))
        if k in ('opt', 'many0', 'many1', 'peek', 'not', 'drop', 'allConsuming', 'lexeme', 'identKw', 'dirScope'):
            return '(.%s %s)' % (k, self.pe(e[1]))
        if k in ('manyTill', 'list', 'ifDir'): return '(.%s %s %s)' % (k, self.pe(e[1]), self.pe(e[2]))
        if k == 'node': return '(.node %s %s)' % (self.kind(e[1]), self.pe(e[2]))
        if k == 'beginKw': return '(.beginKw %d)' % e[1]
        if k == 'kwScope': return '(.kwScope %d %s)' % (e[1], self.pe(e[2]))
        if k == 'kwGuard':
            if isinstance(e[1], tuple): raise grammar.Unsupported('unfilled hole in kwGuard')
            return '(.kwGuard %s)' % hoist(e[1])
        if k == 'shaped': return '(.shaped [%s] %s)' % (', '.join(self.pe(x) for x in e[1]), self.shape(e[2]))
        if k == 'nestl': return '(.nestl %s %s [%s] %s)' % (self.pe(e[1]), self.pe(e[2]), ', '.join(self.kind(x) for x in e[3]), self.kind(e[4]))
        if k == 'hole': raise grammar.Unsupported('unfilled hole')
        raise grammar.Unsupported('pexpr ' + k)

def keyword_tables():
    src = open(os.path.join(REPO, 'sv-parser-parser/src/keywords.rs')).read()
    out = {}
    for m in re.finditer(r'const\s+(\w+)\s*:\s*&\[&str\]\s*=\s*&\[(.*?)\];', src, re.S):
        out[m.group(1)] = [unescape_rust_str(x) for x in re.findall(r'"(?:\\.|[^"\\])*"', m.group(2))]
    return out

def is_keyword_map():
    """utils.rs is_keyword: Version variant -> table constant (and the None default)."""
    src = open(os.path.join(REPO, 'sv-parser-parser/src/utils.rs')).read()
    m = re.search(r'fn is_keyword\(.*?\{(.*?)\n\}', src, re.S)
    body = m.group(1)
    arms = re.findall(r'(Some\(Version::(\w+)\)|None)\s*=>\s*(\w+)\s*,', body)
    vmap = {}; default = None
    for whole, ver, tbl in arms:
        if whole == 'None': default = tbl
        else: vmap[ver] = tbl
    # is_later_keyword: exempt versions and reference table
    ml = re.search(r'fn is_later_keyword\(.*?\{(.*?)\n\}', src, re.S)
    later = {'exempt': [], 'reference': None, 'tables_match': False}
    if ml:
        lb = ml.group(1)
        ex = re.search(r'((?:Some\(Version::\w+\)|None)(?:\s*\|\s*(?:Some\(Version::\w+\)|None))*)\s*=>\s*return false', lb)
        if ex: later['exempt'] = re.findall(r'Version::(\w+)', ex.group(1)) + (['None'] if 'None' in ex.group(1) else [])
        arms2 = dict(re.findall(r'Some\(Version::(\w+)\)\s*=>\s*(KEYWORDS_\w+)\s*,', lb))
        later['tables_match'] = all(vmap.get(k) == v for k, v in arms2.items()) and bool(arms2)
        fm = re.search(r'(KEYWORDS_\w+)\.contains\(&t\)\s*&&\s*!keywords\.contains\(&t\)', lb)
        if fm: later['reference'] = fm.group(1)
        later['guarded'] = sorted(arms2)
    # begin_keywords: string -> Version variant
    m2 = re.search(r'fn begin_keywords\(.*?\{(.*?)\n\}', src, re.S)
    smap = dict(re.findall(r'"([^"]+)"\s*=>\s*current_version\s*\.?\s*borrow_mut\(\)\s*\.?\s*push\(Version::(\w+)\)', re.sub(r'\s+', ' ', m2.group(1))))
    # the compare loop must be `s.fragment() == k`
    exact = bool(re.search(r'for k in keywords \{\s*if s\.fragment\(\) == k \{\s*return true;', body))
    return vmap, default, smap, exact, later

def generate(workdir='/verif/work'):
    os.makedirs(workdir, exist_ok=True)
    tr = grammar.Translator()
    prods = tr.translate_all()
    em = Emitter(tr)
    names = tr.names
    lines = {}
    for n in names:
        p = prods[n]
        try:
            body = em.pe(p['body'])
        except grammar.Unsupported as ex:
            tr.opaque[n] = 'emit: ' + str(ex); body = '.fail'
        lines[n] = '  { packrat := %s, %srecursive := %s, body := %s }' % (
            'true' if p['packrat'] else 'false', 'packrat2 := true, ' if p.get('packrat2') else '', 'true' if p['recursive'] else 'false', body)
    per = (len(names) + NSHARDS - 1) // NSHARDS
    changed = []
    for sh in range(NSHARDS):
        part = names[sh * per:(sh + 1) * per]
        txt = ['import SvModel.Core.Peg', 'import SvModel.Gen.Sets', '/-! GENERATED by svx from /repo/sv-parser-parser/src — do not edit. -/',
               'namespace Sv.Gen', 'open Sv', '',
               '/-- productions %d … %d: %s … %s -/' % (sh * per, sh * per + len(part) - 1, part[0] if part else '', part[-1] if part else ''),
               'def prods%02d : List Prod := [' % sh]
        txt.append(',\n'.join('  -- %d %s\n%s' % (tr.idx[n], n, lines[n]) for n in part))
        txt += ['  ]', '', 'end Sv.Gen', '']
        if write_if_changed(os.path.join(GEN, 'G%02d.lean' % sh), '\n'.join(txt)): changed.append('G%02d' % sh)
    st = ['/-! GENERATED by svx — do not edit. Long byte sets / tags shared by many productions. -/', 'namespace Sv.Gen']
    for k, v in SETS.items():
        st.append('/-- %s -/' % re.sub(r'[^ -~]', '?', k).replace('-/', '- /'))
        st.append('def %s : List Nat := %s' % (v, lbytes(k)))
    st += ['end Sv.Gen', '']
    if write_if_changed(os.path.join(GEN, 'Sets.lean'), '\n'.join(st)): changed.append('Sets')
    for sh in range(NSHARDS):
        w = ['import SvModel.Gen.G%02d' % sh, 'import SvModel.Lemmas.TileDefs',
             '/-! GENERATED by svx — do not edit. Kernel-checked `TileWF` obligation for shard %d. -/' % sh,
             'namespace Sv.Gen', 'open Sv',
             'theorem wf%02d : prods%02d.all Prod.wf = true := by decide +kernel' % (sh, sh),
             'end Sv.Gen', '']
        if write_if_changed(os.path.join(GEN, 'W%02d.lean' % sh), '\n'.join(w)): changed.append('W%02d' % sh)
    # productivity marks: greatest fixpoint of the syntactic check PR (mirrors Lemmas/Productive.lean); Lean re-checks it
    def term_nonempty(t):
        if t[0] in ('tag', 'tagNoCase'): return len(t[1]) > 0
        if t[0] == 'take': return t[1] != 0
        return True
    def pr(e, marks):
        k = e[0]
        if k == 'term': return term_nonempty(e[1])
        if k == 'call': return e[1] in marks
        if k == 'seq': return any(pr(x, marks) for x in e[1])
        if k == 'alt': return all(pr(x, marks) for x in e[1])
        if k in ('many1', 'drop', 'allConsuming', 'lexeme', 'identKw', 'dirScope'): return pr(e[1], marks)
        if k == 'kwScope': return pr(e[2], marks)
        if k == 'manyTill': return pr(e[2], marks)
        if k == 'list': return pr(e[2], marks)
        if k == 'node': return pr(e[2], marks)
        if k == 'ifDir': return pr(e[1], marks) and pr(e[2], marks)
        if k == 'nestl': return pr(e[1], marks)
        if k == 'shaped': return any(pr(x, marks) for x in e[1])
        return False
    marks = set(n for n in names if n not in tr.opaque)
    while True:
        drop = [n for n in marks if not pr(prods[n]['body'], marks)]
        if not drop: break
        marks -= set(drop)
    mlist = sorted(tr.idx[n] for n in marks)
    mper = (len(mlist) + NSHARDS - 1) // NSHARDS if mlist else 1
    mk = ['import SvModel.Core.Peg', '/-! GENERATED by svx — do not edit. Productions claimed productive (checked in Gen/Mnn.lean). -/', 'namespace Sv.Gen']
    for sh in range(NSHARDS):
        mk.append('def marks%02d : List Nat := [%s]' % (sh, ', '.join(map(str, mlist[sh * mper:(sh + 1) * mper]))))
    mk.append('def prodMarks : List Nat := ' + ' ++ '.join('marks%02d' % i for i in range(NSHARDS)))
    mk += ['end Sv.Gen', '']
    if write_if_changed(os.path.join(GEN, 'Marks.lean'), '\n'.join(mk)): changed.append('Marks')
    mp = ['import SvModel.Gen.Grammar', 'import SvModel.Gen.Marks', 'import SvModel.Lemmas.Productive',
          '/-! GENERATED by svx — do not edit. -/', 'namespace Sv.Gen', 'open Sv',
          '/-- the body of production `f` passes the productivity check under the generated marks -/',
          'def markPred (f : Nat) : Bool := PR prodMarks (grammar.prod f).body', 'end Sv.Gen', '']
    if write_if_changed(os.path.join(GEN, 'MarkPred.lean'), '\n'.join(mp)): changed.append('MarkPred')
    for sh in range(NSHARDS):
        w = ['import SvModel.Gen.MarkPred',
             '/-! GENERATED by svx — do not edit. Kernel-checked productivity obligation for mark shard %d. -/' % sh,
             'namespace Sv.Gen', 'open Sv',
             'theorem marksOK%02d : marks%02d.all markPred = true := by decide +kernel' % (sh, sh),
             'end Sv.Gen', '']
        if write_if_changed(os.path.join(GEN, 'M%02d.lean' % sh), '\n'.join(w)): changed.append('M%02d' % sh)
    # keyword tables
    kt = keyword_tables(); vmap, default, smap, exact, later = is_keyword_map()
    vers = grammar.VERSIONS
    variant_of = {'1364-1995': 'Ieee1364_1995', '1364-2001': 'Ieee1364_2001', '1364-2001-noconfig': 'Ieee1364_2001Noconfig',
                  '1364-2005': 'Ieee1364_2005', '1800-2005': 'Ieee1800_2005', '1800-2009': 'Ieee1800_2009',
                  '1800-2012': 'Ieee1800_2012', '1800-2017': 'Ieee1800_2017', 'directive': 'Directive'}
    tbls = []
    kw_problems = []
    for v in vers:
        var = smap.get(v)
        if var is None: kw_problems.append('begin_keywords does not map "%s"' % v); var = variant_of[v]
        if var != variant_of[v]: kw_problems.append('begin_keywords maps "%s" to %s' % (v, var))
        tname = vmap.get(var)
        if tname is None or tname not in kt: kw_problems.append('is_keyword has no table for ' + var); tbls.append([]); continue
        tbls.append(kt[tname])
    if not exact: kw_problems.append('is_keyword compare loop has an unrecognised shape')
    dflt = None
    for i, v in enumerate(vers):
        if vmap.get(variant_of[v]) == default: dflt = i if dflt is None or v == '1800-2017' else dflt
    g = ['import SvModel.Core.Peg'] + ['import SvModel.Gen.G%02d' % i for i in range(NSHARDS)] + [
        '/-! GENERATED by svx — do not edit. -/', 'namespace Sv.Gen', 'open Sv', '']
    for i, v in enumerate(vers):
        g.append('/-- %s (%d words) -/' % (v, len(tbls[i])))
        g.append('def kw%d : List (List Nat) := [%s]' % (i, ', '.join(lbytes(w) for w in tbls[i])))
    g.append('def kwTables : Array (List (List Nat)) := #[%s]' % ', '.join('kw%d' % i for i in range(len(vers))))
    g.append('def kwDefault : Nat := %d' % (dflt if dflt is not None else 999))
    g.append('def allProdsL : List Prod := ' + ' ++ '.join('prods%02d' % i for i in range(NSHARDS)))
    g.append('def allProds : Array Prod := ⟨allProdsL⟩')
    inv_variant = {v: k for k, v in variant_of.items()}
    no_guard = sorted(vers.index(inv_variant[x]) for x in later.get('exempt', []) if x in inv_variant)
    ref_idx = None
    for i, v in enumerate(vers):
        if vmap.get(variant_of[v]) == later.get('reference'): ref_idx = i if ref_idx is None or v == '1800-2017' else ref_idx
    if later.get('reference') is not None:
        if not later.get('tables_match'): kw_problems.append('is_later_keyword uses different tables than is_keyword')
        if 'None' not in later.get('exempt', []): kw_problems.append('is_later_keyword is not exempt outside `begin_keywords regions')
        if sorted(no_guard + [vers.index(inv_variant[x]) for x in later.get('guarded', []) if x in inv_variant]) != list(range(len(vers))): kw_problems.append('is_later_keyword does not cover every version')
        g.append('def grammar : Grammar := { prods := allProds, kwTables := kwTables, kwDefault := kwDefault, kwLatest := %d, kwNoGuard := [%s] }' % (ref_idx if ref_idx is not None else 999, ', '.join(map(str, no_guard))))
    else:
        g.append('def grammar : Grammar := { prods := allProds, kwTables := kwTables, kwDefault := kwDefault }')
    g.append('/-- the version strings accepted by `begin_keywords, in the order of the version codes -/')
    g.append('def kwNames : List (List Nat) := [%s]' % ', '.join(lbytes(v) for v in vers))
    for cn in ('AZ_', 'AZ09_', 'AZ09_DOLLAR'):
        g.append('def const%s : List Nat := %s' % (cn, lbytes(tr.consts.get(cn, ''))))
    g.append('def nProds : Nat := %d' % len(names))
    for entry in ('source_text', 'source_text_incomplete', 'library_text', 'library_text_incomplete', 'preprocessor_text',
                  'white_space', 'description', 'library_description', 'source_description', 'simple_identifier_impl',
                  'c_identifier_impl', 'text_macro_usage', 'text_macro_definition', 'compiler_directive',
                  'compiler_directive_without_resetall', 'version_specifier', 'endkeywords_directive', 'keywords_directive'):
        g.append('def idx_%s : Nat := %d' % (entry, tr.idx.get(entry, 99999)))
    for kn in ('WhiteSpace', 'Symbol', 'Keyword', 'SimpleIdentifier', 'CIdentifier', 'EscapedIdentifier', 'Comment',
               'CompilerDirective', 'SourceText', 'LibraryText', 'PreprocessorText', 'StringLiteral'):
        g.append('def kind_%s : Nat := %d' % (kn, tr.kind_id.get(kn, 99999)))
    g.append('def opaqueProds : List Nat := [%s]' % ', '.join(str(tr.idx[n]) for n in sorted(tr.opaque)))
    # strict / incomplete entry pairs: bodies must be `shaped (pre ++ [last]) res` with last = manyTill item (drop eof) resp. many0 item
    for tag, sname, iname in (('sv', 'source_text', 'source_text_incomplete'), ('lib', 'library_text', 'library_text_incomplete')):
        bs = prods.get(sname, {}).get('body'); bi = prods.get(iname, {}).get('body')
        okp = (bs and bi and bs[0] == 'shaped' and bi[0] == 'shaped' and len(bs[1]) >= 1 and len(bs[1]) == len(bi[1])
               and bs[1][:-1] == bi[1][:-1] and bs[2] == bi[2]
               and bs[1][-1][0] == 'manyTill' and bs[1][-1][2] == ('drop', ('eof',)) and bi[1][-1] == ('many0', bs[1][-1][1]))
        if okp:
            g.append('def %sPre : List PExpr := [%s]' % (tag, ', '.join(em.pe(x) for x in bs[1][:-1])))
            g.append('def %sItem : PExpr := %s' % (tag, em.pe(bs[1][-1][1])))
            g.append('def %sRes : Shape := %s' % (tag, em.shape(bs[2])))
        else:
            # the pattern is gone: emit placeholders; the shape theorems in Props/C15.lean will not check
            g.append('def %sPre : List PExpr := []' % tag)
            g.append('def %sItem : PExpr := .fail' % tag)
            g.append('def %sRes : Shape := .empty' % tag)
    g += ['', 'end Sv.Gen', '']
    if write_if_changed(os.path.join(GEN, 'Grammar.lean'), '\n'.join(g)): changed.append('Grammar')
    nm = ['/-! GENERATED by svx — do not edit. Names for diagnostics only. -/', 'namespace Sv.Gen',
          'def prodNames : Array String := #[%s]' % ', '.join(lstr(n) for n in names),
          'def kindNames : Array String := #["Locate", %s]' % ', '.join(lstr(k[0]) for k in tr.kinds),
          'end Sv.Gen', '']
    if write_if_changed(os.path.join(GEN, 'Names.lean'), '\n'.join(nm)): changed.append('Names')
    # kind numbers for the preprocessor walker model (Core/Pp.lean)
    def kid(n): return tr.kind_id.get(n, 99999)
    def vid(en, vn):
        try: return tr.kind_id[en] + 2048 * (tr.variants[en].index(vn) + 1)
        except Exception: return 99999
    kept = ['ResetallCompilerDirective', 'TimescaleCompilerDirective', 'DefaultNettypeCompilerDirective',
            'UnconnectedDriveCompilerDirective', 'NounconnectedDriveCompilerDirective', 'CelldefineDriveCompilerDirective',
            'EndcelldefineDriveCompilerDirective', 'Pragma', 'LineCompilerDirective', 'KeywordsDirective', 'EndkeywordsDirective']
    fields = [
        ('sdNotDirective', kid('SourceDescriptionNotDirective')), ('sourceDescription', kid('SourceDescription')),
        ('sdStringLiteral', vid('SourceDescription', 'StringLiteral')), ('sdEscapedIdentifier', vid('SourceDescription', 'EscapedIdentifier')),
        ('compilerDirective', kid('CompilerDirective')), ('kept', '[%s]' % ', '.join(str(kid(k)) for k in kept)),
        ('undefine', kid('UndefineCompilerDirective')), ('undefineall', kid('UndefineallCompilerDirective')),
        ('ifdef', kid('IfdefDirective')), ('ifndef', kid('IfndefDirective')), ('whiteSpace', kid('WhiteSpace')),
        ('wsSpace', vid('WhiteSpace', 'Space')), ('comment', kid('Comment')), ('textMacroDefinition', kid('TextMacroDefinition')),
        ('includeDirective', kid('IncludeCompilerDirective')), ('incDoubleQuote', vid('IncludeCompilerDirective', 'DoubleQuote')),
        ('incAngleBracket', vid('IncludeCompilerDirective', 'AngleBracket')), ('incTextMacroUsage', vid('IncludeCompilerDirective', 'TextMacroUsage')),
        ('textMacroUsage', kid('TextMacroUsage')), ('position', kid('PositionCompilerDirective')),
        ('simpleIdentifier', kid('SimpleIdentifier')), ('escapedIdentifier', kid('EscapedIdentifier')), ('symbol', kid('Symbol')),
        ('keyword', kid('Keyword')), ('textMacroIdentifier', kid('TextMacroIdentifier')), ('elsifGroup', kid('ElsifGroupOfLines')),
        ('elseGroup', kid('ElseGroupOfLines')), ('textMacroName', kid('TextMacroName')), ('listOfFormalArguments', kid('ListOfFormalArguments')),
        ('formalArgument', kid('FormalArgument')), ('defaultText', kid('DefaultText')), ('macroText', kid('MacroText')),
        ('listOfActualArguments', kid('ListOfActualArguments')), ('actualArgument', kid('ActualArgument')),
        ('stringLiteral', kid('StringLiteral')), ('angleBracketLiteral', kid('AngleBracketLiteral')),
        ('ppText', tr.idx.get('preprocessor_text', 99999)),
    ]
    pk = ['import SvModel.Core.Pp', '/-! GENERATED by svx — do not edit. -/', 'namespace Sv.Gen', 'open Sv',
          'def ppKinds : PpKinds := {', ',\n'.join('  %s := %s' % (a, b) for a, b in fields), '}', 'end Sv.Gen', '']
    if write_if_changed(os.path.join(GEN, 'PpKinds.lean'), '\n'.join(pk)): changed.append('PpKinds')
    eo, eproblems = entrymod.generate()
    etext, eok = entrymod.emit(eo, eproblems)
    if write_if_changed(os.path.join(GEN, 'Entry.lean'), etext): changed.append('Entry')
    pcur = panicsmod.scan()
    pbase = json.load(open(os.path.join(os.path.dirname(os.path.abspath(__file__)), 'panic_baseline.json')))['sites']
    panic_growth = panicsmod.compare(pcur, pbase)
    # productions reachable from the preprocessor's entry (the only part of the grammar the pp checks depend on)
    def calls_of(e, acc):
        if isinstance(e, tuple):
            if len(e) >= 2 and e[0] == 'call' and isinstance(e[1], str): acc.add(e[1])
            for x in e: calls_of(x, acc)
        elif isinstance(e, list):
            for x in e: calls_of(x, acc)
    pp_reach = set(); todo = ['preprocessor_text']
    while todo:
        n = todo.pop()
        if n in pp_reach or n not in prods: continue
        pp_reach.add(n); acc = set(); calls_of(prods[n]['body'], acc); todo.extend(acc - pp_reach)
    # memo-relevant attributes of every production: (number of #[packrat_parser], #[recursive_parser]) against the committed inventory
    memo_attrs = {n: [int(bool(prods[n]['packrat'])) + int(bool(prods[n].get('packrat2'))), int(bool(prods[n]['recursive']))] for n in names}
    mb_path = os.path.join(os.path.dirname(os.path.abspath(__file__)), 'memo_baseline.json')
    memo_changes = []
    if os.path.exists(mb_path):
        mb = json.load(open(mb_path))['attrs']
        for n in sorted(set(mb) | set(memo_attrs)):
            if mb.get(n) != memo_attrs.get(n): memo_changes.append('%s: %s -> %s' % (n, mb.get(n), memo_attrs.get(n)))
    sitems, sclears = staticsmod.generate()
    if write_if_changed(os.path.join(GEN, 'Statics.lean'), staticsmod.emit(sitems, sclears)): changed.append('Statics')
    # memo capacity constant of the storage! invocation
    capm = [it for it in sitems if it[3].startswith('PACKRAT_STORAGE(')]
    # conversions
    ct = conv.conv_table()
    rows = []; conv_opaque = []
    for key, names_, apps, raw in ct:
        if names_ is None:
            conv_opaque.append((key, raw)); continue
        idxs = [names_.index(a) if a in names_ else 999 for a in apps]
        kc = 0 if key.startswith('(') else {'Paren<T>': 1, 'Brace<T>': 2, 'Bracket<T>': 3, 'ApostropheBrace<T>': 4, 'List<T,U>': 5}.get(key, 9)
        rows.append('(%d, %d, [%s])' % (kc, len(names_), ', '.join(map(str, idxs))))
    en, st = conv.derive_shape()
    c = ['/-! GENERATED by svx from sv-parser-syntaxtree/src/any_node.rs and sv-parser-macros/src/lib.rs — do not edit. -/',
         'namespace Sv.Gen',
         '/-- (wrapper code, arity, order in which the destructured components are appended); wrapper code 0 = tuple,',
         '    1 Paren, 2 Brace, 3 Bracket, 4 ApostropheBrace, 5 List -/',
         'def convTable : List (Nat × Nat × List Nat) := [%s]' % ', '.join(rows),
         '/-- `next` of a derived enum: body of each variant arm, whitespace removed -/',
         'def deriveEnumArm : List Nat := %s' % lbytes(en),
         '/-- `next` of a derived struct -/',
         'def deriveStructArm : List Nat := %s' % lbytes(st),
         '/-- the conversions that do not destructure a tuple (`Locate`, `Vec<T>`, `Option<T>`, `Box<T>`): (type, body with white space normalised) -/',
         'def convGeneric : List (String × String) := [%s]' % ', '.join('(%s, %s)' % (lstr(k), lstr(r)) for k, r in conv_opaque),
         'def nKinds : Nat := %d' % (len(tr.kinds) + 1),
         'end Sv.Gen', '']
    if write_if_changed(os.path.join(GEN, 'Conv.lean'), '\n'.join(c)): changed.append('Conv')
    ppc = ppconstsmod.scan()
    if write_if_changed(os.path.join(GEN, 'PpConsts.lean'), ppconstsmod.emit(ppc)): changed.append('PpConsts')
    ppa = pparmsmod.scan()
    if write_if_changed(os.path.join(GEN, 'PpArms.lean'), pparmsmod.emit(ppa)): changed.append('PpArms')
    cn, ctotal = corpus.write(workdir)
    summary = {
        'productions': len(names), 'opaque': tr.opaque, 'combinators': sorted(tr.comb_templates),
        'packrat': sum(1 for n in names if prods[n]['packrat']), 'packrat_twice': sum(1 for n in names if prods[n].get('packrat2')), 'recursive': sum(1 for n in names if prods[n]['recursive']),
        'kinds': len(tr.kinds), 'keyword_tables': {v: len(t) for v, t in zip(vers, tbls)}, 'kw_default': dflt,
        'kw_problems': kw_problems, 'entry_problems': eproblems, 'statics': [list(x) for x in sitems], 'clears': sclears, 'panic_growth': panic_growth, 'pp_reachable': sorted(pp_reach), 'memo_attrs': memo_attrs, 'memo_attr_changes': memo_changes, 'panic_sites': sum(sum(v.values()) for v in pcur.values()), 'conv_rows': len(rows), 'conv_opaque': conv_opaque,
        'productive_marks': len(mlist), 'unmarked': sorted(n for n in names if n not in marks),
        'pp_const_problems': ppc['problems'] + ppa['problems'], 'corpus': cn, 'test_macros': ctotal, 'changed_modules': changed,
        'names': names, 'kind_names': ['Locate'] + [k[0] for k in tr.kinds],
        'kind_sorts': {k[0]: k[1] for k in tr.kinds},
    }
    json.dump({v: t for v, t in zip(vers, tbls)}, open(os.path.join(workdir, 'keywords.json'), 'w'))
    with open(os.path.join(workdir, 'keywords.txt'), 'w') as kf:
        for v, t in zip(vers, tbls): kf.write(v + ' ' + ' '.join(t) + '\n')
    # the reserved-word lists of IEEE 1800-2017 Annex B / 1364 as transcribed in the pinned tree: committed reference, changed only by hand
    kb = os.path.join(os.path.dirname(os.path.abspath(__file__)), 'keywords_baseline.txt')
    kw_changes = []
    if os.path.exists(kb):
        ref = {l.split(' ')[0]: l.split(' ')[1:] for l in open(kb).read().split('\n') if l.strip()}
        cur = {v: t for v, t in zip(vers, tbls)}
        for v in sorted(set(ref) | set(cur)):
            a, b = ref.get(v, []), cur.get(v, [])
            if sorted(a) != sorted(b):
                kw_changes.append('%s: missing %s, extra %s' % (v, sorted(set(a) - set(b))[:6], sorted(set(b) - set(a))[:6]))
    summary['kw_table_changes'] = kw_changes
    open(os.path.join(workdir, 'kinds.txt'), 'w').write('\n'.join(summary['kind_names']) + '\n')
    open(os.path.join(workdir, 'names.txt'), 'w').write('\n'.join(names) + '\n')
    json.dump(summary, open(os.path.join(workdir, 'summary.json'), 'w'))
    return summary

if __name__ == '__main__':
    s = generate()
    print({k: v for k, v in s.items() if k not in ('names', 'kind_names', 'kind_sorts', 'conv_opaque')})

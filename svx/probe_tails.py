import re, os, collections
from rustsrc import *
from rustexpr import *
FN = re.compile(r'((?:#\[[^\]]*\]\s*)*)pub(?:\(crate\))?\s+fn\s+((?:r#)?\w+)\s*\(\s*s:\s*Span,?\s*\)\s*->\s*IResult<Span,\s*([^{]*)>\s*\{')
def functions(path):
    src = open(path).read(); ss = blank_literals(src)
    for m in FN.finditer(ss):
        e = match_brace(ss, m.end())
        yield m.group(2).replace('r#',''), m.group(1), m.group(3).strip(), src[m.end():e-1]
tails = collections.Counter(); ex = {}
n = 0
for f in rs_files('sv-parser-parser', exclude=('tests.rs','keywords.rs','utils.rs','lib.rs')):
    for name, attrs, ret, body in functions(f):
        n += 1
        try:
            stmts, rest = parse_stmts_prefix(body)
        except Unsupported as e:
            print('LEXFAIL', name, e); continue
        if rest:
            t = re.sub(r'\s+', ' ', rest.strip())
            tails[t] += 1; ex.setdefault(t, []).append(name)
print(n)
for t, c in tails.most_common():
    print(c, ex[t][:8]); print('   ', t)

"""Tokenizer and recursive-descent parser for the Rust expression subset used by the parser crate.
It never guesses: anything outside the subset raises Unsupported and the caller marks the function opaque."""
import re

class Unsupported(Exception):
    pass

TOK = re.compile(r'''
    (?P<ws>\s+|//[^\n]*|/\*.*?\*/)
  | (?P<str>r\#*"(?:.|\n)*?"\#*|"(?:\\.|[^"\\])*")
  | (?P<chr>'(?:\\.|[^'\\])')
  | (?P<num>\d+(?:usize)?)
  | (?P<id>(?:r\#)?[A-Za-z_][A-Za-z0-9_]*(?:::(?:r\#)?[A-Za-z_][A-Za-z0-9_]*)*!?)
  | (?P<op>=>|\|\||&&|==|!=|[(){}\[\],;?&*.=|:<>!\-+'])
''', re.X | re.S)

def lex(s):
    out = []; i = 0
    while i < len(s):
        m = TOK.match(s, i)
        if not m: raise Unsupported('lex at %r' % s[i:i + 30])
        i = m.end()
        k = m.lastgroup
        if k == 'ws': continue
        v = m.group(k)
        if k == 'id': v = v.replace('r#', '')
        out.append((k, v, m.start()))
    out.append(('eof', '', len(s)))
    return out

CONTROL = ('if', 'for', 'while', 'match', 'loop', 'unsafe', 'return', 'break')

class Parser:
    def __init__(self, src):
        self.src = src; self.t = lex(src); self.i = 0
    def peek(self, o=0): return self.t[self.i + o][:2]
    def pos(self): return self.t[self.i][2]
    def eat(self, v=None, k=None):
        tk = self.t[self.i]
        if v is not None and tk[1] != v: raise Unsupported('expected %r got %r' % (v, tk[:2]))
        if k is not None and tk[0] != k: raise Unsupported('expected kind %r got %r' % (k, tk[:2]))
        self.i += 1; return tk[:2]
    def at(self, v): return self.t[self.i][1] == v and self.t[self.i][0] == 'op'
    def at_id(self, v): return self.t[self.i][:2] == ('id', v)
    def eof(self): return self.t[self.i][0] == 'eof'

    def expr(self):
        if self.at('|') or self.at('||'): return self.closure()
        if self.at('&'): self.eat('&'); return self.expr()
        if self.at('*'): self.eat('*'); return ('deref', self.expr())
        return self.postfix()
    def closure(self):
        if self.at('||'):
            self.eat('||'); params = []
        else:
            self.eat('|')
            pats = []
            while not self.at('|'):
                pats.append(self.pattern())
                if self.at(':'):
                    self.eat(':'); self.type_(stop=('|', ','))
                if self.at(','): self.eat(',')
            self.eat('|'); params = pats
        if self.at('{'): body = self.block()
        else: body = ('block', [], self.expr())
        return ('closure', params, body)
    def block(self):
        self.eat('{'); stmts = []
        while True:
            if self.at('}'): self.eat('}'); return ('block', stmts, None)
            e = self.stmt_or_expr()
            if self.at(';'): self.eat(';'); stmts.append(e); continue
            self.eat('}'); return ('block', stmts, e)
    def stmt_or_expr(self):
        if self.at_id('let'):
            self.eat(); pat = self.pattern()
            if self.at(':'):
                self.eat(':'); self.type_(stop=('=', ';'))
            self.eat('='); e = self.expr(); return ('let', pat, e)
        return self.expr()
    def type_(self, stop):
        depth = 0
        while not (depth == 0 and self.t[self.i][0] == 'op' and self.t[self.i][1] in stop):
            tk = self.eat()
            if tk[1] in ('(', '<'): depth += 1
            if tk[1] in (')', '>'): depth -= 1
    def pattern(self):
        if self.at('('):
            self.eat('('); items = []
            while not self.at(')'):
                items.append(self.pattern())
                if self.at(','): self.eat(',')
            self.eat(')'); return ('ptuple', items)
        if self.at_id('mut'): raise Unsupported('mut pattern')
        if self.at_id('ref'): self.eat()
        tk = self.eat(k='id'); return ('pvar', tk[1])
    def postfix(self):
        e = self.primary()
        while True:
            if self.at('('): e = ('call', e, self.args())
            elif self.at('?'): self.eat('?'); e = ('try', e)
            elif self.at('.'):
                self.eat('.'); name = self.eat()[1]
                if self.at('('): e = ('mcall', e, name, self.args())
                else: e = ('field', e, name)
            else: return e
    def args(self):
        self.eat('('); a = []
        while not self.at(')'):
            a.append(self.expr())
            if self.at(','): self.eat(',')
        self.eat(')'); return a
    def primary(self):
        k, v = self.peek()
        if k == 'str': self.eat(); return ('str', v)
        if k == 'chr': self.eat(); return ('chr', v)
        if k == 'num': self.eat(); return ('num', v)
        if k == 'op' and v == '(':
            return ('tuple', self.args())
        if k == 'op' and v == '{':
            return self.block()
        if k == 'id':
            if v in CONTROL: raise Unsupported('control flow ' + v)
            self.eat()
            if v == 'vec!':
                self.eat('['); self.eat(']'); return ('vecempty',)
            if v.endswith('!'): raise Unsupported('macro ' + v)
            if self.at('{') and re.match(r'^[A-Z]', v.split('::')[-1]) and self.peek(1) == ('id', 'nodes'):
                self.eat('{'); self.eat('nodes'); self.eat(':'); e = self.expr()
                if self.at(','): self.eat(',')
                self.eat('}'); return ('struct', v, e)
            return ('path', v)
        raise Unsupported('primary %r' % ((k, v),))

def parse_stmts_prefix(body):
    """Parse statements from the start of a function body as far as the subset allows.
    Returns (stmts, rest_source) where rest_source is the unparsed tail ('' if everything parsed)."""
    p = Parser(body)
    stmts = []
    while not p.eof():
        save = p.i
        start = p.pos()
        try:
            e = p.stmt_or_expr()
            if p.at(';'): p.eat(';'); stmts.append(('stmt', e))
            elif p.eof(): stmts.append(('tail', e))
            else: raise Unsupported('junk after expression')
        except Unsupported:
            p.i = save
            return stmts, body[start:]
    return stmts, ''
